// Package refbls is the deliberately naive reference model of BLS12-381 group
// arithmetic and (de)serialisation used by the checks. Pure Go on math/big; it does not
// import the library under test nor any BLS / pairing library.
//
// Contents: F_p, F_p^2 = F_p[u]/(u^2+1), E1: y^2 = x^3 + 4 over F_p, E2: y^2 = x^3 + 4(1+u)
// over F_p^2, affine chord-and-tangent addition (Add), Jacobian double-and-add (Mul; the two
// are cross-checked in SelfTest), subgroup test [R]P = O, the compressed ZCash serialisation
// of draft-irtf-cfrg-pairing-friendly-curves (appendix "ZCash serialization format"),
// the byte order the library under test actually uses for G2 ("Flow" order), small-order
// and cofactor points of E1 / E2, Lagrange coefficients at 0 and polynomial evaluation mod R.
//
// There is no pairing and no hash-to-curve here. Checks that need H(m) take the library's
// signature under the private key 1 (which is H(m) by definition of BLS signing), decode
// it with DecodeG1 and compute the expected signature of key sk as EncodeG1(H.Mul(sk)).
package refbls

import (
	"bytes"
	"encoding/hex"
	"errors"
	"fmt"
	"math/big"
)

func hx(s string) *big.Int {
	v, ok := new(big.Int).SetString(s, 16)
	if !ok {
		panic("refbls: bad constant " + s)
	}
	return v
}

var (
	// P is the base field prime, R the order of G1, G2.
	P = hx("1a0111ea397fe69a4b1ba7b6434bacd764774b84f38512bf6730d2a0f6b0f6241eabfffeb153ffffb9feffffffffaaab")
	R = hx("73eda753299d7d483339d80809a1d80553bda402fffe5bfeffffffff00000001")
	// H1, H2 are the cofactors: #E1(F_p) = H1*R, #E2(F_p^2) = H2*R.
	H1 = hx("396c8c005555e1568c00aaab0000aaab")
	H2 = hx("5d543a95414e7f1091d50792876a202cd91de4547085abaa68a205b2e5a7ddfa628f1cb4d9e82ef21537e293a6691ae1616ec6e786f0c70cf1c38e31c7238e5")

	g1x  = hx("17f1d3a73197d7942695638c4fa9ac0fc3688c4f9774b905a14e3a3f171bac586c55e83ff97a1aeffb3af00adb22c6bb")
	g1y  = hx("08b3f481e3aaa0f1a09e30ed741d8ae4fcf5e095d5d00af600db18cb2c04b3edd03cc744a2888ae40caa232946c5e7e1")
	g2x0 = hx("024aa2b2f08f0a91260805272dc51051c6e47ad4fa403b02b4510b647ae3d1770bac0326a805bbefd48056c8c121bdb8")
	g2x1 = hx("13e02b6052719f607dacd3a088274f65596bd0d09920b61ab5da61bbdc7f5049334cf11213945d57e5ac7d055d042b7e")
	g2y0 = hx("0ce5d527727d6e118cc9cdc6da2e351aadfd9baa8cbdd3a76d429a695160d12c923ac9cc3baca289e193548608b82801")
	g2y1 = hx("0606c4a02ea734cc32acd2b02bc28b99cb3e287e85a763af267492ab572e99ab3f370d275cec1da1aaa9075ff05f79be")

	pPlus1Div4 = new(big.Int).Rsh(new(big.Int).Add(P, big.NewInt(1)), 2) // p = 3 mod 4
	big0       = big.NewInt(0)
	big1       = big.NewInt(1)
)

// ---------------------------------------------------------------- F_p

func fpAdd(a, b *big.Int) *big.Int {
	c := new(big.Int).Add(a, b)
	if c.Cmp(P) >= 0 {
		c.Sub(c, P)
	}
	return c
}
func fpSub(a, b *big.Int) *big.Int {
	c := new(big.Int).Sub(a, b)
	if c.Sign() < 0 {
		c.Add(c, P)
	}
	return c
}
func fpNeg(a *big.Int) *big.Int {
	if a.Sign() == 0 {
		return new(big.Int)
	}
	return new(big.Int).Sub(P, a)
}
func fpMul(a, b *big.Int) *big.Int {
	c := new(big.Int).Mul(a, b)
	return c.Mod(c, P)
}
func fpInv(a *big.Int) *big.Int { return new(big.Int).ModInverse(a, P) }

// fpSqrt returns a square root of a (a reduced) and whether one exists.
func fpSqrt(a *big.Int) (*big.Int, bool) {
	s := new(big.Int).Exp(a, pPlus1Div4, P)
	if fpMul(s, s).Cmp(a) != 0 {
		return nil, false
	}
	return s, true
}

// fpLarger reports y > -y as integers in [0,p), i.e. y > (p-1)/2.
func fpLarger(y *big.Int) bool {
	return new(big.Int).Lsh(y, 1).Cmp(P) > 0
}

// ---------------------------------------------------------------- F_p^2

// Fp2 is C0 + C1*u with u^2 = -1. Values handed out by this package are reduced.
type Fp2 struct{ C0, C1 *big.Int }

// NewFp2 builds an element from two integers (reduced mod P).
func NewFp2(c0, c1 *big.Int) Fp2 {
	return Fp2{new(big.Int).Mod(c0, P), new(big.Int).Mod(c1, P)}
}
func (a Fp2) IsZero() bool     { return a.C0.Sign() == 0 && a.C1.Sign() == 0 }
func (a Fp2) Equal(b Fp2) bool { return a.C0.Cmp(b.C0) == 0 && a.C1.Cmp(b.C1) == 0 }
func (a Fp2) String() string   { return fmt.Sprintf("(%x + %x*u)", a.C0, a.C1) }
func f2Add(a, b Fp2) Fp2       { return Fp2{fpAdd(a.C0, b.C0), fpAdd(a.C1, b.C1)} }
func f2Sub(a, b Fp2) Fp2       { return Fp2{fpSub(a.C0, b.C0), fpSub(a.C1, b.C1)} }
func f2Neg(a Fp2) Fp2          { return Fp2{fpNeg(a.C0), fpNeg(a.C1)} }
func f2Mul(a, b Fp2) Fp2 {
	// (a0 + a1 u)(b0 + b1 u) = a0b0 - a1b1 + (a0b1 + a1b0) u
	t0 := new(big.Int).Mul(a.C0, b.C0)
	t1 := new(big.Int).Mul(a.C1, b.C1)
	t2 := new(big.Int).Mul(a.C0, b.C1)
	t3 := new(big.Int).Mul(a.C1, b.C0)
	t0.Sub(t0, t1)
	t0.Mod(t0, P)
	t2.Add(t2, t3)
	t2.Mod(t2, P)
	return Fp2{t0, t2}
}
func f2Sqr(a Fp2) Fp2 {
	// (a0+a1)(a0-a1) + 2 a0 a1 u
	s := new(big.Int).Add(a.C0, a.C1)
	d := new(big.Int).Sub(a.C0, a.C1)
	s.Mul(s, d)
	s.Mod(s, P)
	t := new(big.Int).Mul(a.C0, a.C1)
	t.Lsh(t, 1)
	t.Mod(t, P)
	return Fp2{s, t}
}
func f2Inv(a Fp2) Fp2 {
	n := fpAdd(fpMul(a.C0, a.C0), fpMul(a.C1, a.C1))
	ni := fpInv(n)
	return Fp2{fpMul(a.C0, ni), fpMul(fpNeg(a.C1), ni)}
}

// f2Sqrt returns a square root of a and whether one exists (result verified by squaring).
func f2Sqrt(a Fp2) (Fp2, bool) {
	if a.C1.Sign() == 0 {
		if s, ok := fpSqrt(a.C0); ok {
			return Fp2{s, new(big.Int)}, true
		}
		// a0 is a non-residue, so -a0 is a residue (p = 3 mod 4): (s*u)^2 = -s^2 = a0
		s, ok := fpSqrt(fpNeg(a.C0))
		if !ok {
			return Fp2{}, false
		}
		return Fp2{new(big.Int), s}, true
	}
	norm := fpAdd(fpMul(a.C0, a.C0), fpMul(a.C1, a.C1))
	s, ok := fpSqrt(norm)
	if !ok {
		return Fp2{}, false
	}
	inv2 := fpInv(big.NewInt(2))
	t := fpMul(fpAdd(a.C0, s), inv2)
	x0, ok := fpSqrt(t)
	if !ok {
		t = fpMul(fpSub(a.C0, s), inv2)
		x0, ok = fpSqrt(t)
		if !ok {
			return Fp2{}, false
		}
	}
	if x0.Sign() == 0 {
		return Fp2{}, false
	}
	x1 := fpMul(a.C1, fpInv(fpAdd(x0, x0)))
	r := Fp2{x0, x1}
	if !f2Sqr(r).Equal(a) {
		return Fp2{}, false
	}
	return r, true
}

// f2Larger: y is "lexicographically larger" than -y in the sense of the ZCash format: compare
// the C1 coefficients first and, if C1 = 0, the C0 coefficients.
func f2Larger(y Fp2) bool {
	if y.C1.Sign() != 0 {
		return fpLarger(y.C1)
	}
	return fpLarger(y.C0)
}

// ---------------------------------------------------------------- generic Jacobian arithmetic

type field[T any] struct {
	add, sub, mul func(a, b T) T
	sqr, neg, inv func(a T) T
	isZero        func(a T) bool
	eq            func(a, b T) bool
	one           func() T
}

var fFp = field[*big.Int]{
	add: fpAdd, sub: fpSub, mul: fpMul,
	sqr: func(a *big.Int) *big.Int { return fpMul(a, a) }, neg: fpNeg, inv: fpInv,
	isZero: func(a *big.Int) bool { return a.Sign() == 0 },
	eq:     func(a, b *big.Int) bool { return a.Cmp(b) == 0 },
	one:    func() *big.Int { return big.NewInt(1) },
}
var fFp2 = field[Fp2]{
	add: f2Add, sub: f2Sub, mul: f2Mul, sqr: f2Sqr, neg: f2Neg, inv: f2Inv,
	isZero: func(a Fp2) bool { return a.IsZero() },
	eq:     func(a, b Fp2) bool { return a.Equal(b) },
	one:    func() Fp2 { return Fp2{big.NewInt(1), new(big.Int)} },
}

// jac is a Jacobian point (X/Z^2, Y/Z^3); inf marks the point at infinity.
type jac[T any] struct {
	x, y, z T
	inf     bool
}

func jacDouble[T any](f *field[T], p jac[T]) jac[T] {
	if p.inf || f.isZero(p.y) {
		return jac[T]{inf: true}
	}
	// curve coefficient a = 0
	a := f.sqr(p.x)
	b := f.sqr(p.y)
	c := f.sqr(b)
	d := f.sub(f.sub(f.sqr(f.add(p.x, b)), a), c)
	d = f.add(d, d)
	e := f.add(f.add(a, a), a)
	ff := f.sqr(e)
	x3 := f.sub(ff, f.add(d, d))
	c8 := f.add(c, c)
	c8 = f.add(c8, c8)
	c8 = f.add(c8, c8)
	y3 := f.sub(f.mul(e, f.sub(d, x3)), c8)
	z3 := f.mul(p.y, p.z)
	z3 = f.add(z3, z3)
	return jac[T]{x: x3, y: y3, z: z3}
}

func jacAdd[T any](f *field[T], p, q jac[T]) jac[T] {
	if p.inf {
		return q
	}
	if q.inf {
		return p
	}
	z1z1 := f.sqr(p.z)
	z2z2 := f.sqr(q.z)
	u1 := f.mul(p.x, z2z2)
	u2 := f.mul(q.x, z1z1)
	s1 := f.mul(f.mul(p.y, q.z), z2z2)
	s2 := f.mul(f.mul(q.y, p.z), z1z1)
	h := f.sub(u2, u1)
	r := f.sub(s2, s1)
	if f.isZero(h) {
		if f.isZero(r) {
			return jacDouble(f, p)
		}
		return jac[T]{inf: true}
	}
	h2 := f.sqr(h)
	h3 := f.mul(h, h2)
	v := f.mul(u1, h2)
	x3 := f.sub(f.sub(f.sqr(r), h3), f.add(v, v))
	y3 := f.sub(f.mul(r, f.sub(v, x3)), f.mul(s1, h3))
	z3 := f.mul(f.mul(p.z, q.z), h)
	return jac[T]{x: x3, y: y3, z: z3}
}

// jacMul computes [k]p for k >= 0 with a fixed 4-bit window (left to right).
func jacMul[T any](f *field[T], p jac[T], k *big.Int) jac[T] {
	if p.inf || k.Sign() == 0 {
		return jac[T]{inf: true}
	}
	var tab [16]jac[T]
	tab[0] = jac[T]{inf: true}
	tab[1] = p
	for i := 2; i < 16; i++ {
		if i%2 == 0 {
			tab[i] = jacDouble(f, tab[i/2])
		} else {
			tab[i] = jacAdd(f, tab[i-1], p)
		}
	}
	acc := jac[T]{inf: true}
	nb := k.BitLen()
	top := (nb + 3) / 4 * 4
	for i := top - 4; i >= 0; i -= 4 {
		if !acc.inf {
			acc = jacDouble(f, acc)
			acc = jacDouble(f, acc)
			acc = jacDouble(f, acc)
			acc = jacDouble(f, acc)
		}
		w := k.Bit(i) | k.Bit(i+1)<<1 | k.Bit(i+2)<<2 | k.Bit(i+3)<<3
		if w != 0 {
			acc = jacAdd(f, acc, tab[w])
		}
	}
	return acc
}

func jacAffine[T any](f *field[T], p jac[T]) (x, y T, inf bool) {
	if p.inf || f.isZero(p.z) {
		return x, y, true
	}
	zi := f.inv(p.z)
	zi2 := f.sqr(zi)
	return f.mul(p.x, zi2), f.mul(p.y, f.mul(zi2, zi)), false
}

// affAdd is the textbook affine chord-and-tangent law on y^2 = x^3 + b.
func affAdd[T any](f *field[T], x1, y1 T, inf1 bool, x2, y2 T, inf2 bool) (x3, y3 T, inf3 bool) {
	if inf1 {
		return x2, y2, inf2
	}
	if inf2 {
		return x1, y1, inf1
	}
	var lam T
	if f.eq(x1, x2) {
		if !f.eq(y1, y2) || f.isZero(y1) {
			return x3, y3, true // P + (-P), or doubling a 2-torsion point
		}
		xx := f.sqr(x1)
		lam = f.mul(f.add(f.add(xx, xx), xx), f.inv(f.add(y1, y1)))
	} else {
		lam = f.mul(f.sub(y2, y1), f.inv(f.sub(x2, x1)))
	}
	x3 = f.sub(f.sub(f.sqr(lam), x1), x2)
	y3 = f.sub(f.mul(lam, f.sub(x1, x3)), y1)
	return x3, y3, false
}

func normScalar(k *big.Int) (*big.Int, bool) {
	if k.Sign() < 0 {
		return new(big.Int).Neg(k), true
	}
	return k, false
}

// ---------------------------------------------------------------- E1

// G1 is an affine point of E1: y^2 = x^3 + 4 over F_p (any curve point, not necessarily in
// the prime-order subgroup), or the point at infinity.
type G1 struct {
	X, Y *big.Int
	Inf  bool
}

var bE1 = big.NewInt(4)

// G1Gen is the standard generator of the order-R subgroup of E1.
func G1Gen() G1 { return G1{new(big.Int).Set(g1x), new(big.Int).Set(g1y), false} }

// G1Inf is the point at infinity of E1.
func G1Inf() G1 { return G1{Inf: true} }

func (a G1) jac() jac[*big.Int] {
	if a.Inf {
		return jac[*big.Int]{inf: true}
	}
	return jac[*big.Int]{x: a.X, y: a.Y, z: big.NewInt(1)}
}
func g1FromJac(p jac[*big.Int]) G1 {
	x, y, inf := jacAffine(&fFp, p)
	if inf {
		return G1{Inf: true}
	}
	return G1{x, y, false}
}

// Add is the affine group law (handles doubling, inverses and infinity).
func (a G1) Add(b G1) G1 {
	x, y, inf := affAdd(&fFp, a.X, a.Y, a.Inf, b.X, b.Y, b.Inf)
	if inf {
		return G1{Inf: true}
	}
	return G1{x, y, false}
}
func (a G1) Neg() G1 {
	if a.Inf {
		return a
	}
	return G1{new(big.Int).Set(a.X), fpNeg(a.Y), false}
}

// Mul returns [k]a for any integer k (negative k multiplies -a). k is NOT reduced mod R,
// so Mul is correct for points outside the subgroup too.
func (a G1) Mul(k *big.Int) G1 {
	k, neg := normScalar(k)
	r := g1FromJac(jacMul(&fFp, a.jac(), k))
	if neg {
		return r.Neg()
	}
	return r
}
func (a G1) Equal(b G1) bool {
	if a.Inf || b.Inf {
		return a.Inf == b.Inf
	}
	return a.X.Cmp(b.X) == 0 && a.Y.Cmp(b.Y) == 0
}

// OnCurve: infinity, or reduced coordinates satisfying y^2 = x^3 + 4.
func (a G1) OnCurve() bool {
	if a.Inf {
		return true
	}
	if a.X == nil || a.Y == nil || a.X.Sign() < 0 || a.Y.Sign() < 0 || a.X.Cmp(P) >= 0 || a.Y.Cmp(P) >= 0 {
		return false
	}
	return fpMul(a.Y, a.Y).Cmp(fpAdd(fpMul(fpMul(a.X, a.X), a.X), bE1)) == 0
}

// InSubgroup: [R]a = O (infinity is in the subgroup).
func (a G1) InSubgroup() bool { return a.Mul(R).Inf }
func (a G1) String() string {
	if a.Inf {
		return "G1(inf)"
	}
	return fmt.Sprintf("G1(%x, %x)", a.X, a.Y)
}

// G1FromX returns the curve point with the given reduced x and the lexicographically larger
// (larger=true) or smaller y, if x^3+4 is a square.
func G1FromX(x *big.Int, larger bool) (G1, bool) {
	if x.Sign() < 0 || x.Cmp(P) >= 0 {
		return G1{}, false
	}
	y, ok := fpSqrt(fpAdd(fpMul(fpMul(x, x), x), bE1))
	if !ok {
		return G1{}, false
	}
	if fpLarger(y) != larger {
		y = fpNeg(y)
	}
	return G1{new(big.Int).Set(x), y, false}, true
}

// ---------------------------------------------------------------- E2

// G2 is an affine point of E2: y^2 = x^3 + 4(1+u) over F_p^2, or the point at infinity.
type G2 struct {
	X, Y Fp2
	Inf  bool
}

var bE2 = Fp2{big.NewInt(4), big.NewInt(4)}

// G2Gen is the standard generator of the order-R subgroup of E2.
func G2Gen() G2 {
	return G2{Fp2{new(big.Int).Set(g2x0), new(big.Int).Set(g2x1)}, Fp2{new(big.Int).Set(g2y0), new(big.Int).Set(g2y1)}, false}
}

// G2Inf is the point at infinity of E2.
func G2Inf() G2 { return G2{Inf: true} }

func (a G2) jac() jac[Fp2] {
	if a.Inf {
		return jac[Fp2]{inf: true}
	}
	return jac[Fp2]{x: a.X, y: a.Y, z: fFp2.one()}
}
func g2FromJac(p jac[Fp2]) G2 {
	x, y, inf := jacAffine(&fFp2, p)
	if inf {
		return G2{Inf: true}
	}
	return G2{x, y, false}
}
func (a G2) Add(b G2) G2 {
	x, y, inf := affAdd(&fFp2, a.X, a.Y, a.Inf, b.X, b.Y, b.Inf)
	if inf {
		return G2{Inf: true}
	}
	return G2{x, y, false}
}
func (a G2) Neg() G2 {
	if a.Inf {
		return a
	}
	return G2{a.X, f2Neg(a.Y), false}
}
func (a G2) Mul(k *big.Int) G2 {
	k, neg := normScalar(k)
	r := g2FromJac(jacMul(&fFp2, a.jac(), k))
	if neg {
		return r.Neg()
	}
	return r
}
func (a G2) Equal(b G2) bool {
	if a.Inf || b.Inf {
		return a.Inf == b.Inf
	}
	return a.X.Equal(b.X) && a.Y.Equal(b.Y)
}
func fp2Reduced(a Fp2) bool {
	return a.C0 != nil && a.C1 != nil && a.C0.Sign() >= 0 && a.C1.Sign() >= 0 && a.C0.Cmp(P) < 0 && a.C1.Cmp(P) < 0
}
func (a G2) OnCurve() bool {
	if a.Inf {
		return true
	}
	if !fp2Reduced(a.X) || !fp2Reduced(a.Y) {
		return false
	}
	return f2Sqr(a.Y).Equal(f2Add(f2Mul(f2Sqr(a.X), a.X), bE2))
}
func (a G2) InSubgroup() bool { return a.Mul(R).Inf }
func (a G2) String() string {
	if a.Inf {
		return "G2(inf)"
	}
	return fmt.Sprintf("G2(%v, %v)", a.X, a.Y)
}

// G2FromX returns the curve point with the given reduced x and the lexicographically larger /
// smaller y, if x^3+4(1+u) is a square in F_p^2.
func G2FromX(x Fp2, larger bool) (G2, bool) {
	if !fp2Reduced(x) {
		return G2{}, false
	}
	y, ok := f2Sqrt(f2Add(f2Mul(f2Sqr(x), x), bE2))
	if !ok {
		return G2{}, false
	}
	if f2Larger(y) != larger {
		y = f2Neg(y)
	}
	return G2{Fp2{new(big.Int).Set(x.C0), new(big.Int).Set(x.C1)}, y, false}, true
}

// ---------------------------------------------------------------- serialisation

const (
	FlagCompressed = 0x80
	FlagInfinity   = 0x40
	FlagSign       = 0x20
	G1Bytes        = 48
	G2Bytes        = 96
)

func fp48(a *big.Int) []byte { return a.FillBytes(make([]byte, 48)) }

// EncodeG1 is the 48-byte compressed ZCash encoding: big-endian x, bit 7 of byte 0 set
// (compressed), bit 6 = infinity (then everything else zero), bit 5 = y is the
// lexicographically larger of {y, -y}, i.e. y > (p-1)/2.
func EncodeG1(p G1) []byte {
	if p.Inf {
		out := make([]byte, 48)
		out[0] = FlagCompressed | FlagInfinity
		return out
	}
	out := fp48(p.X)
	out[0] |= FlagCompressed
	if fpLarger(p.Y) {
		out[0] |= FlagSign
	}
	return out
}

// DecodeG1 is the strict canonical decoder of a compressed E1 point: length 48, compression
// bit set, infinity => every other bit zero, x < P, x^3+4 a square; y chosen by the sign
// bit. No subgroup check (use InSubgroup). Every accepted input re-encodes to itself.
func DecodeG1(b []byte) (G1, error) {
	if len(b) != 48 {
		return G1{}, fmt.Errorf("refbls: G1 encoding has length %d, want 48", len(b))
	}
	if b[0]&FlagCompressed == 0 {
		return G1{}, errors.New("refbls: compression bit not set")
	}
	if b[0]&FlagInfinity != 0 {
		if b[0] != FlagCompressed|FlagInfinity {
			return G1{}, errors.New("refbls: infinity with other header/x bits set")
		}
		for _, v := range b[1:] {
			if v != 0 {
				return G1{}, errors.New("refbls: infinity with non-zero byte")
			}
		}
		return G1{Inf: true}, nil
	}
	t := append([]byte{}, b...)
	t[0] &= 0x1f
	x := new(big.Int).SetBytes(t)
	if x.Cmp(P) >= 0 {
		return G1{}, errors.New("refbls: x >= p")
	}
	pt, ok := G1FromX(x, b[0]&FlagSign != 0)
	if !ok {
		return G1{}, errors.New("refbls: x^3+4 is not a square")
	}
	return pt, nil
}

func encodeG2(p G2, first, second func(Fp2) *big.Int) []byte {
	out := make([]byte, 96)
	if p.Inf {
		out[0] = FlagCompressed | FlagInfinity
		return out
	}
	copy(out[:48], fp48(first(p.X)))
	copy(out[48:], fp48(second(p.X)))
	out[0] |= FlagCompressed
	if f2Larger(p.Y) {
		out[0] |= FlagSign
	}
	return out
}

func decodeG2(b []byte, mk func(first, second *big.Int) Fp2) (G2, error) {
	if len(b) != 96 {
		return G2{}, fmt.Errorf("refbls: G2 encoding has length %d, want 96", len(b))
	}
	if b[0]&FlagCompressed == 0 {
		return G2{}, errors.New("refbls: compression bit not set")
	}
	if b[0]&FlagInfinity != 0 {
		if b[0] != FlagCompressed|FlagInfinity {
			return G2{}, errors.New("refbls: infinity with other header/x bits set")
		}
		for _, v := range b[1:] {
			if v != 0 {
				return G2{}, errors.New("refbls: infinity with non-zero byte")
			}
		}
		return G2{Inf: true}, nil
	}
	t := append([]byte{}, b[:48]...)
	t[0] &= 0x1f
	first := new(big.Int).SetBytes(t)
	second := new(big.Int).SetBytes(b[48:])
	if first.Cmp(P) >= 0 || second.Cmp(P) >= 0 {
		return G2{}, errors.New("refbls: coordinate >= p")
	}
	pt, ok := G2FromX(mk(first, second), b[0]&FlagSign != 0)
	if !ok {
		return G2{}, errors.New("refbls: x^3+4(1+u) is not a square")
	}
	return pt, nil
}

// EncodeG2ZCash is the 96-byte compressed encoding exactly as in
// draft-irtf-cfrg-pairing-friendly-curves (ZCash format): x = C0 + C1*u is written as
// C1 || C0 (each 48 bytes big endian), the three flag bits sit in the first byte (top bits of
// C1); sign bit = y lexicographically larger than -y, comparing C1 first and, when the C1
// of y is zero, C0.
func EncodeG2ZCash(p G2) []byte {
	return encodeG2(p, func(x Fp2) *big.Int { return x.C1 }, func(x Fp2) *big.Int { return x.C0 })
}

// DecodeG2ZCash is the strict canonical decoder of the ZCash format (no subgroup check).
func DecodeG2ZCash(b []byte) (G2, error) {
	return decodeG2(b, func(first, second *big.Int) Fp2 { return Fp2{second, first} })
}

// EncodeG2Flow is the format the library under test actually uses (finding F1 of
// DESIGN.md section 6): the same as the ZCash format except that the two 48-byte halves
// are written C0 || C1 (real part first; Fp2_write_bytes, bls12381_utils.c:424), the flags
// being put on the first byte, i.e. on the top bits of C0.
//
// Sign bit of the library (E2_write_bytes / E2_read_bytes -> Fp2_get_sign ->
// BLST sgn0_pty_mont_384x, bit 1): "a->im != 0 ? sgn0(a->im) : sgn0(a->re)" where the sign of
// an F_p element a is 1 iff 2a > p (sgn0_pty_mod_n computes 2a - p and looks at the
// borrow). That is exactly the ZCash rule (compare C1 first, then C0; larger than the
// negation), so only the order of the halves differs, not the sign convention. It is NOT the
// RFC 9380 sgn0 (parity), which BLST returns in bit 0 of the same helper and Flow ignores.
func EncodeG2Flow(p G2) []byte {
	return encodeG2(p, func(x Fp2) *big.Int { return x.C0 }, func(x Fp2) *big.Int { return x.C1 })
}

// DecodeG2Flow is the strict canonical decoder for the C0 || C1 order (no subgroup check).
func DecodeG2Flow(b []byte) (G2, error) {
	return decodeG2(b, func(first, second *big.Int) Fp2 { return Fp2{first, second} })
}

// SwapG2Halves exchanges the two 48-byte halves of a 96-byte G2 encoding and moves the three
// flag bits to the new first byte (translation between the ZCash and Flow orders whenever the
// half that receives the flags has its top three bits clear; otherwise ok=false).
func SwapG2Halves(b []byte) (out []byte, ok bool) {
	if len(b) != 96 {
		return nil, false
	}
	out = make([]byte, 96)
	copy(out[:48], b[48:])
	copy(out[48:], b[:48])
	if out[0]&0xe0 != 0 {
		return nil, false
	}
	flags := b[0] & 0xe0
	out[48] &= 0x1f
	out[0] |= flags
	return out, true
}

// ScalarFromBytes interprets b as a big-endian unsigned integer (no reduction).
func ScalarFromBytes(b []byte) *big.Int { return new(big.Int).SetBytes(b) }

// ScalarBytes is the 32-byte big-endian encoding of 0 <= k < 2^256 (panics otherwise).
func ScalarBytes(k *big.Int) []byte {
	if k.Sign() < 0 || k.BitLen() > 256 {
		panic("refbls: ScalarBytes out of range")
	}
	return k.FillBytes(make([]byte, 32))
}

// ---------------------------------------------------------------- points outside the subgroups

// firstG1Point returns the curve points (x, smaller y) for x = from, from+1, ...
func nextG1Point(x *big.Int) G1 {
	for {
		if p, ok := G1FromX(x, false); ok {
			return p
		}
		x = new(big.Int).Add(x, big1)
	}
}

// CofactorPointG1 is a non-trivial element of the cofactor subgroup of E1: [R]Q for the first
// curve point Q = (x, smaller y), x = 1, 2, 3, ... for which [R]Q != O. Its order divides
// H1 and is prime to R, so it is on the curve and outside G1.
func CofactorPointG1() G1 {
	x := big.NewInt(1)
	for {
		q := nextG1Point(x)
		t := q.Mul(R)
		if !t.Inf {
			return t
		}
		x = new(big.Int).Add(q.X, big1)
	}
}

// TorsionG1 returns a point of E1 of EXACT order `order` for order in {3, 11, 33}:
// the first curve point Q = (x, smaller y), x = 1, 2, ... is projected into the {3,11}-primary
// part of E1 by [#E1/(3*11^2)] and then scaled to the exact order
// (H1 = 3 * 11^2 * 10177^2 * 859267^2 * 52437899^2; the 11-part is Z/11 x Z/11).
func TorsionG1(order int) (G1, error) {
	if order != 3 && order != 11 && order != 33 {
		return G1{}, fmt.Errorf("refbls: no torsion generator for order %d", order)
	}
	m, pp := stripPrimes(new(big.Int).Mul(H1, R), order)
	x := big.NewInt(1)
	for tries := 0; tries < 200; tries++ {
		q := nextG1Point(x)
		x = new(big.Int).Add(q.X, big1)
		// t lies in the {primes of order}-primary part of E1, whose size is pp; the structure of
		// that part is not assumed (for 11 it is Z/11 x Z/11): find the exact order n of t by
		// trying the divisors of pp in ascending order, then scale down to `order`.
		t := q.Mul(m)
		for d := 1; d <= pp; d++ {
			if pp%d != 0 || !t.Mul(big.NewInt(int64(d))).Inf {
				continue
			}
			if d%order == 0 {
				if r := t.Mul(big.NewInt(int64(d / order))); exactOrderG1(r, order) {
					return r, nil
				}
			}
			break
		}
	}
	return G1{}, errors.New("refbls: torsion point not found")
}

// stripPrimes returns n with every prime factor of `order` divided out, and the divided-out part.
func stripPrimes(n *big.Int, order int) (m *big.Int, pp int) {
	m, pp = new(big.Int).Set(n), 1
	for _, q := range primeFactorsSmall(order) {
		qq := big.NewInt(int64(q))
		for new(big.Int).Mod(m, qq).Sign() == 0 {
			m.Quo(m, qq)
			pp *= q
		}
	}
	return m, pp
}

func primeFactorsSmall(n int) []int {
	var f []int
	for d := 2; d <= n; d++ {
		if n%d == 0 {
			f = append(f, d)
			for n%d == 0 {
				n /= d
			}
		}
	}
	return f
}
func exactOrderG1(t G1, order int) bool {
	if t.Inf || !t.Mul(big.NewInt(int64(order))).Inf {
		return false
	}
	for _, q := range primeFactorsSmall(order) {
		if t.Mul(big.NewInt(int64(order / q))).Inf {
			return false
		}
	}
	return true
}
func exactOrderG2(t G2, order int) bool {
	if t.Inf || !t.Mul(big.NewInt(int64(order))).Inf {
		return false
	}
	for _, q := range primeFactorsSmall(order) {
		if t.Mul(big.NewInt(int64(order / q))).Inf {
			return false
		}
	}
	return true
}

func nextG2Point(c0 *big.Int) G2 {
	for {
		if p, ok := G2FromX(Fp2{c0, big.NewInt(1)}, false); ok {
			return p
		}
		c0 = new(big.Int).Add(c0, big1)
	}
}

// NonSubgroupG2 is an on-curve E2 point outside G2: the first point with x = c0 + u,
// c0 = 1, 2, ... (smaller y) that fails [R]Q = O. (A random curve point is in G2 with
// probability 1/H2, so this is the first curve point in practice.)
func NonSubgroupG2() G2 {
	c := big.NewInt(1)
	for {
		q := nextG2Point(c)
		if !q.InSubgroup() {
			return q
		}
		c = new(big.Int).Add(q.X.C0, big1)
	}
}

// CofactorPointG2 is [R]NonSubgroupG2(): a non-trivial point whose order divides H2.
func CofactorPointG2() G2 { return NonSubgroupG2().Mul(R) }

// TorsionG2 returns a point of E2 of exact order `order` for order in {13, 23, 299}
// (13^2 and 23^2 divide H2): the first suitable Q = (c0 + u, smaller y) projected into the
// {13,23}-primary part of E2 and scaled to the exact order.
func TorsionG2(order int) (G2, error) {
	if order != 13 && order != 23 && order != 299 {
		return G2{}, fmt.Errorf("refbls: no E2 torsion generator for order %d", order)
	}
	m, pp := stripPrimes(new(big.Int).Mul(H2, R), order)
	c := big.NewInt(1)
	for tries := 0; tries < 200; tries++ {
		q := nextG2Point(c)
		c = new(big.Int).Add(q.X.C0, big1)
		t := q.Mul(m)
		for d := 1; d <= pp; d++ {
			if pp%d != 0 || !t.Mul(big.NewInt(int64(d))).Inf {
				continue
			}
			if d%order == 0 {
				if r := t.Mul(big.NewInt(int64(d / order))); exactOrderG2(r, order) {
					return r, nil
				}
			}
			break
		}
	}
	return G2{}, errors.New("refbls: torsion point not found")
}

// SmallOrderComponentG2 exploits the small prime factor 13 of the cofactor H2: it returns
// g2 + T13 with T13 of exact order 13, an on-curve point outside G2 whose only defect is a
// component of order 13 (so [13]point is in G2, a "small-subgroup" input).
func SmallOrderComponentG2() (G2, error) {
	t, err := TorsionG2(13)
	if err != nil {
		return G2{}, err
	}
	return G2Gen().Add(t), nil
}

// ---------------------------------------------------------------- F_r helpers

// LagrangeAtZero returns, for distinct non-zero evaluation points x_i = indices[i], the
// coefficients l_i = prod_{j != i} x_j / (x_j - x_i) mod R, so that f(0) = sum l_i f(x_i)
// for every polynomial f of degree < len(indices).
func LagrangeAtZero(indices []int) []*big.Int {
	out := make([]*big.Int, len(indices))
	for i, xi := range indices {
		num, den := big.NewInt(1), big.NewInt(1)
		for j, xj := range indices {
			if j == i {
				continue
			}
			num.Mul(num, big.NewInt(int64(xj)))
			num.Mod(num, R)
			den.Mul(den, big.NewInt(int64(xj-xi)))
			den.Mod(den, R)
		}
		den.ModInverse(den, R)
		out[i] = num.Mul(num, den)
		out[i].Mod(out[i], R)
	}
	return out
}

// PolyEval returns sum coeffs[i] * x^i mod R.
func PolyEval(coeffs []*big.Int, x int) *big.Int {
	acc := new(big.Int)
	xx := big.NewInt(int64(x))
	for i := len(coeffs) - 1; i >= 0; i-- {
		acc.Mul(acc, xx)
		acc.Add(acc, coeffs[i])
		acc.Mod(acc, R)
	}
	return acc
}

// ---------------------------------------------------------------- self test

const (
	g1GenHex  = "97f1d3a73197d7942695638c4fa9ac0fc3688c4f9774b905a14e3a3f171bac586c55e83ff97a1aeffb3af00adb22c6bb"
	g2GenZHex = "93e02b6052719f607dacd3a088274f65596bd0d09920b61ab5da61bbdc7f5049334cf11213945d57e5ac7d055d042b7e024aa2b2f08f0a91260805272dc51051c6e47ad4fa403b02b4510b647ae3d1770bac0326a805bbefd48056c8c121bdb8"
	// [2]g1 compressed; x-coordinate published in the BLS12-381 test vectors
	// (x = 0572cbea..., y = 166a9d8c... > (p-1)/2, hence header 0xa0).
	g1TwoHex = "a572cbea904d67468808c8eb50a9450c9721db309128012543902d0ac358a62ae28f75bb8f1c7c42c39a8c5529bf0f4e"
	// [2]g2 in ZCash order; coordinates as published in the EIP-2537 G2 test vectors
	// (x.c0 = 1638533957d5..., x.c1 = 0a4edef9c1ed..., y.c1 = 0f6d4552fa65... > (p-1)/2, hence sign bit set).
	g2TwoZHex = "aa4edef9c1ed7f729f520e47730a124fd70662a904ba1074728114d1031e1572c6c886f6b57ec72a6178288c47c335771638533957d540a9d2370f17cc7ed5863bc0b995b8825e0ee1ea1e1e4d00dbae81f14b0bf3611b78c952aacab827a053"
)

func mustHex(s string) []byte {
	b, err := hex.DecodeString(s)
	if err != nil {
		panic(err)
	}
	return b
}

// SelfTest validates the package against published constants and internal redundancy
// (affine law vs. Jacobian ladder, encode/decode round trips, torsion orders, Lagrange).
func SelfTest() error {
	if !P.ProbablyPrime(20) || !R.ProbablyPrime(20) {
		return errors.New("refbls: P or R not prime")
	}
	g1, g2 := G1Gen(), G2Gen()
	if !g1.OnCurve() || !g2.OnCurve() {
		return errors.New("refbls: generator not on curve")
	}
	if !g1.InSubgroup() || !g2.InSubgroup() || !g1.Mul(R).Inf || !g2.Mul(R).Inf {
		return errors.New("refbls: [R]generator != O")
	}
	if g1.Mul(big.NewInt(7)).Inf || g2.Mul(new(big.Int).Sub(R, big1)).Inf {
		return errors.New("refbls: generator multiple is O")
	}
	// Hasse-type sanity of the cofactors: #E1 = p + 1 - t with t = z + 1, z = -0xd201000000010000
	z := new(big.Int).Neg(hx("d201000000010000"))
	n1 := new(big.Int).Sub(P, z) // p + 1 - (z + 1)
	if n1.Cmp(new(big.Int).Mul(H1, R)) != 0 {
		return errors.New("refbls: H1*R != p - z")
	}
	// published encodings
	if !bytes.Equal(EncodeG1(g1), mustHex(g1GenHex)) {
		return errors.New("refbls: compressed G1 generator mismatch")
	}
	if !bytes.Equal(EncodeG2ZCash(g2), mustHex(g2GenZHex)) {
		return errors.New("refbls: compressed G2 generator (ZCash) mismatch")
	}
	if !bytes.Equal(EncodeG1(g1.Mul(big.NewInt(2))), mustHex(g1TwoHex)) {
		return fmt.Errorf("refbls: [2]g1 = %x", EncodeG1(g1.Mul(big.NewInt(2))))
	}
	if !bytes.Equal(EncodeG2ZCash(g2.Mul(big.NewInt(2))), mustHex(g2TwoZHex)) {
		return fmt.Errorf("refbls: [2]g2 = %x", EncodeG2ZCash(g2.Mul(big.NewInt(2))))
	}
	// affine law vs Jacobian ladder, group axioms on small multiples
	acc1, acc2 := G1Inf(), G2Inf()
	for k := 1; k <= 40; k++ {
		acc1, acc2 = acc1.Add(g1), acc2.Add(g2)
		kk := big.NewInt(int64(k))
		if !acc1.Equal(g1.Mul(kk)) || !acc2.Equal(g2.Mul(kk)) || !acc1.OnCurve() || !acc2.OnCurve() {
			return fmt.Errorf("refbls: affine sum and Jacobian ladder disagree at k=%d", k)
		}
	}
	ks := []*big.Int{hx("1234567890abcdef1234567890abcdef1234567890abcdef1234567890abcdef"), new(big.Int).Sub(R, big1), new(big.Int).Sub(R, big.NewInt(2)), hx("ffffffffffffffffffffffffffffffffffffffffffffffffffffffffffffffff")}
	for _, k := range ks {
		a, b := hx("abcdef0123456789"), new(big.Int)
		b.Sub(k, a)
		if !g1.Mul(a).Add(g1.Mul(b)).Equal(g1.Mul(k)) || !g2.Mul(a).Add(g2.Mul(b)).Equal(g2.Mul(k)) {
			return errors.New("refbls: [a]G + [k-a]G != [k]G")
		}
		if !g1.Mul(k).Equal(g1.Mul(new(big.Int).Mod(k, R))) || !g2.Mul(k).Equal(g2.Mul(new(big.Int).Mod(k, R))) {
			return errors.New("refbls: scalar not periodic mod R on the generator")
		}
		if !g1.Mul(k).Neg().Equal(g1.Mul(new(big.Int).Neg(k))) || !g2.Mul(k).Add(g2.Mul(k).Neg()).Inf {
			return errors.New("refbls: negation")
		}
	}
	if !g1.Mul(new(big.Int).Sub(R, big1)).Equal(g1.Neg()) || !g2.Mul(new(big.Int).Sub(R, big1)).Equal(g2.Neg()) {
		return errors.New("refbls: [R-1]G != -G")
	}
	// encode / decode round trips (both signs occur among small multiples)
	signs1, signs2 := map[bool]bool{}, map[bool]bool{}
	p1, p2 := G1Inf(), G2Inf()
	for k := 0; k <= 12; k++ {
		e := EncodeG1(p1)
		d, err := DecodeG1(e)
		if err != nil || !d.Equal(p1) || !bytes.Equal(EncodeG1(d), e) {
			return fmt.Errorf("refbls: G1 round trip failed at k=%d: %v", k, err)
		}
		signs1[e[0]&FlagSign != 0] = true
		ez, ef := EncodeG2ZCash(p2), EncodeG2Flow(p2)
		dz, err1 := DecodeG2ZCash(ez)
		df, err2 := DecodeG2Flow(ef)
		if err1 != nil || err2 != nil || !dz.Equal(p2) || !df.Equal(p2) {
			return fmt.Errorf("refbls: G2 round trip failed at k=%d: %v %v", k, err1, err2)
		}
		sw, ok := SwapG2Halves(ez)
		if !ok || !bytes.Equal(sw, ef) {
			return errors.New("refbls: SwapG2Halves(ZCash) != Flow")
		}
		signs2[ez[0]&FlagSign != 0] = true
		p1, p2 = p1.Add(g1), p2.Add(g2)
	}
	if len(signs1) != 2 || len(signs2) != 2 {
		return errors.New("refbls: round trips did not see both sign bits")
	}
	// sign bit really selects y vs -y
	e := EncodeG1(g1)
	e[0] ^= FlagSign
	if d, err := DecodeG1(e); err != nil || !d.Equal(g1.Neg()) {
		return errors.New("refbls: sign bit does not negate (G1)")
	}
	ez := EncodeG2ZCash(g2)
	ez[0] ^= FlagSign
	if d, err := DecodeG2ZCash(ez); err != nil || !d.Equal(g2.Neg()) {
		return errors.New("refbls: sign bit does not negate (G2)")
	}
	// strictness
	bad := [][]byte{
		nil, make([]byte, 47), make([]byte, 49), mustHex(g1GenHex)[:47],
		func() []byte { b := mustHex(g1GenHex); b[0] &^= FlagCompressed; return b }(),
		func() []byte { b := make([]byte, 48); b[0] = 0xc0; b[47] = 1; return b }(),
		func() []byte { b := make([]byte, 48); b[0] = 0xe0; return b }(),
		func() []byte { b := make([]byte, 48); b[0] = 0xc1; return b }(),
		func() []byte { b := make([]byte, 48); b[0] = 0x40; return b }(),
		func() []byte { b := fp48(P); b[0] |= 0x80; return b }(),
		func() []byte { // x + p for a valid x (fits in 381 bits only if small): use x of [k]g1 with x+p < 2^381
			for k := int64(1); ; k++ {
				x := new(big.Int).Add(g1.Mul(big.NewInt(k)).X, P)
				if x.BitLen() <= 381 {
					b := fp48(x)
					b[0] |= 0x80
					return b
				}
			}
		}(),
	}
	for i, b := range bad {
		if _, err := DecodeG1(b); err == nil {
			return fmt.Errorf("refbls: DecodeG1 accepted bad input #%d %x", i, b)
		}
	}
	// x with x^3+4 a non-residue must be rejected; count both kinds among x = 0..20
	sq, nsq := 0, 0
	for x := int64(0); x <= 20; x++ {
		b := fp48(big.NewInt(x))
		b[0] |= 0x80
		if pt, err := DecodeG1(b); err == nil {
			sq++
			if !pt.OnCurve() || !bytes.Equal(EncodeG1(pt), b) {
				return errors.New("refbls: decoded small-x point not on curve / not canonical")
			}
		} else {
			nsq++
		}
	}
	if sq == 0 || nsq == 0 {
		return errors.New("refbls: small-x scan did not see both residues and non-residues")
	}
	bad2 := [][]byte{
		make([]byte, 95), make([]byte, 97),
		func() []byte { b := make([]byte, 96); b[0] = 0xc0; b[95] = 1; return b }(),
		func() []byte { b := make([]byte, 96); b[0] = 0xc0; b[48] = 1; return b }(),
		func() []byte { b := make([]byte, 96); b[0] = 0xe0; return b }(),
		func() []byte { b := mustHex(g2GenZHex); b[0] &^= FlagCompressed; return b }(),
		func() []byte { b := make([]byte, 96); copy(b[48:], fp48(P)); b[0] |= 0x80; return b }(),
		func() []byte { b := make([]byte, 96); copy(b, fp48(P)); b[0] |= 0x80; return b }(),
	}
	for i, b := range bad2 {
		if _, err := DecodeG2ZCash(b); err == nil {
			return fmt.Errorf("refbls: DecodeG2ZCash accepted bad input #%d", i)
		}
		if _, err := DecodeG2Flow(b); err == nil {
			return fmt.Errorf("refbls: DecodeG2Flow accepted bad input #%d", i)
		}
	}
	// the ZCash generator read in Flow order is a different string (x coefficients swapped)
	if d, err := DecodeG2Flow(mustHex(g2GenZHex)); err == nil && d.Equal(g2) {
		return errors.New("refbls: Flow and ZCash orders not distinguished")
	}
	// F_p^2 square roots: all four shapes
	for _, a := range []Fp2{{big.NewInt(4), new(big.Int)}, {fpNeg(big.NewInt(4)), new(big.Int)}, {big.NewInt(5), new(big.Int)}, {new(big.Int), big.NewInt(2)}, f2Sqr(Fp2{big.NewInt(3), big.NewInt(7)}), f2Sqr(Fp2{hx("1234567"), fpNeg(big.NewInt(9))})} {
		s, ok := f2Sqrt(a)
		if !ok || !f2Sqr(s).Equal(a) {
			return fmt.Errorf("refbls: f2Sqrt failed on %v", a)
		}
	}
	nonsq := 0
	for c := int64(1); c < 30; c++ {
		a := Fp2{big.NewInt(c), big.NewInt(1)}
		// Euler criterion via the norm: a is a square in F_p^2 iff N(a) is a square in F_p
		_, nOK := fpSqrt(fpAdd(fpMul(a.C0, a.C0), fpMul(a.C1, a.C1)))
		_, ok := f2Sqrt(a)
		if ok != nOK {
			return errors.New("refbls: f2Sqrt existence disagrees with the norm criterion")
		}
		if !ok {
			nonsq++
		}
	}
	if nonsq == 0 {
		return errors.New("refbls: no non-square seen in F_p^2 scan")
	}
	// torsion and cofactor points of E1
	for _, o := range []int{3, 11, 33} {
		t, err := TorsionG1(o)
		if err != nil {
			return err
		}
		if !t.OnCurve() || t.Inf || t.InSubgroup() || !exactOrderG1(t, o) {
			return fmt.Errorf("refbls: TorsionG1(%d) wrong", o)
		}
		// brute-force order
		q, n := t, 1
		for !q.Inf {
			q = q.Add(t)
			n++
			if n > 40 {
				break
			}
		}
		if n != o {
			return fmt.Errorf("refbls: TorsionG1(%d) has order %d by repeated addition", o, n)
		}
		// s+T is on the curve, outside G1, and decodes canonically
		s := g1.Mul(big.NewInt(5)).Add(t)
		d, err := DecodeG1(EncodeG1(s))
		if err != nil || !d.Equal(s) || s.InSubgroup() || !s.OnCurve() {
			return errors.New("refbls: s+T handling")
		}
	}
	if _, err := TorsionG1(5); err == nil {
		return errors.New("refbls: TorsionG1(5) should fail")
	}
	c1 := CofactorPointG1()
	if c1.Inf || !c1.OnCurve() || c1.InSubgroup() || !c1.Mul(H1).Inf {
		return errors.New("refbls: CofactorPointG1 wrong")
	}
	// E2
	ns := NonSubgroupG2()
	if ns.Inf || !ns.OnCurve() || ns.InSubgroup() || !ns.Mul(new(big.Int).Mul(H2, R)).Inf {
		return errors.New("refbls: NonSubgroupG2 wrong (or #E2 != H2*R)")
	}
	c2 := CofactorPointG2()
	if c2.Inf || !c2.OnCurve() || c2.InSubgroup() || !c2.Mul(H2).Inf {
		return errors.New("refbls: CofactorPointG2 wrong")
	}
	for _, o := range []int{13, 23} {
		t, err := TorsionG2(o)
		if err != nil {
			return err
		}
		q, n := t, 1
		for !q.Inf {
			q = q.Add(t)
			n++
			if n > 40 {
				break
			}
		}
		if n != o || !t.OnCurve() || t.InSubgroup() {
			return fmt.Errorf("refbls: TorsionG2(%d) has order %d", o, n)
		}
	}
	sc, err := SmallOrderComponentG2()
	if err != nil {
		return err
	}
	if !sc.OnCurve() || sc.InSubgroup() || !sc.Mul(big.NewInt(13)).InSubgroup() || !sc.Mul(big.NewInt(13)).Equal(g2.Mul(big.NewInt(13))) {
		return errors.New("refbls: SmallOrderComponentG2 wrong")
	}
	// scalars
	if !bytes.Equal(ScalarBytes(big1), append(make([]byte, 31), 1)) || ScalarFromBytes(ScalarBytes(R)).Cmp(R) != 0 {
		return errors.New("refbls: scalar bytes")
	}
	// Lagrange on a known polynomial: f(x) = 7 + 3x + 5x^2 + 11x^3 (mod R), f(0) = 7
	f := []*big.Int{big.NewInt(7), big.NewInt(3), big.NewInt(5), big.NewInt(11)}
	if PolyEval(f, 2).Cmp(big.NewInt(7+6+20+88)) != 0 || PolyEval(f, 0).Cmp(big.NewInt(7)) != 0 {
		return errors.New("refbls: PolyEval")
	}
	fr := []*big.Int{new(big.Int).Sub(R, big1), new(big.Int).Sub(R, big.NewInt(5)), hx("73eda753299d7d483339d80809a1d80553bda402fffe5bfe00000000ffffffff")}
	for _, tc := range []struct {
		pol []*big.Int
		idx []int
	}{{f, []int{1, 2, 3, 4}}, {f, []int{9, 2, 7, 255, 4}}, {fr, []int{3, 1, 2}}, {fr, []int{200, 17, 5, 6}}, {f[:1], []int{5}}} {
		l := LagrangeAtZero(tc.idx)
		sum := new(big.Int)
		for i, x := range tc.idx {
			sum.Add(sum, new(big.Int).Mul(l[i], PolyEval(tc.pol, x)))
		}
		sum.Mod(sum, R)
		if sum.Cmp(new(big.Int).Mod(tc.pol[0], R)) != 0 {
			return fmt.Errorf("refbls: Lagrange interpolation at 0 failed for %v", tc.idx)
		}
	}
	// textbook value: points {1,2}: l = (2, -1)
	l := LagrangeAtZero([]int{1, 2})
	if l[0].Cmp(big.NewInt(2)) != 0 || l[1].Cmp(new(big.Int).Sub(R, big1)) != 0 {
		return errors.New("refbls: Lagrange {1,2} != (2,-1)")
	}
	return nil
}
