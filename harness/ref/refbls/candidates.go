package refbls

import (
	"fmt"
	"math/big"
	"sync"
)

// Candidate is one structured byte string offered to a G1 (signature) parsing site.
type Candidate struct {
	Name  string // structural class, e.g. "bitflip/17", "plusT11", "inf-nonzero/47", "len/49/zeroext"
	Bytes []byte
}

var (
	torsOnce sync.Once
	torsPts  map[string]G1
)

// G1Torsion returns the fixed points of E1 outside G1 used by the candidate family:
// "T3", "T11", "T33" (exact small orders) and "cofactor" (CofactorPointG1, large cofactor order).
func G1Torsion() map[string]G1 {
	torsOnce.Do(func() {
		torsPts = map[string]G1{}
		for _, o := range []int{3, 11, 33} {
			t, err := TorsionG1(o)
			if err != nil {
				panic(err)
			}
			torsPts[fmt.Sprintf("T%d", o)] = t
		}
		torsPts["cofactor"] = CofactorPointG1()
	})
	return torsPts
}

// G1Candidates builds the candidate-signature family of DESIGN.md (C01) around the valid
// signature point s = sk*H(m) (H = H(m) as a G1 point):
//
//	the valid s; all 384 single-bit flips; -s; s+T for T of order 3, 11, 33 and of large
//	cofactor order; s+d for d in {+g1, -g1, +H, -H, s}; the non-canonical x+p when it fits in
//	381 bits; all 8 settings of the three flag bits; the uncompressed 96-byte form; the
//	infinity encoding, its 48 variants with one non-zero byte, the same with the sign bit;
//	every length 0..200 (truncations, zero and garbage extensions).
//
// The verdict for each candidate is NOT part of the family: callers compute it with
// DecodeG1 / InSubgroup / Equal.
func G1Candidates(s, H G1) []Candidate {
	var out []Candidate
	add := func(name string, b []byte) { out = append(out, Candidate{name, b}) }
	enc := EncodeG1(s)
	add("valid", enc)
	for i := 0; i < 384; i++ {
		b := append([]byte{}, enc...)
		b[i/8] ^= 0x80 >> (i % 8)
		add(fmt.Sprintf("bitflip/%d", i), b)
	}
	add("neg", EncodeG1(s.Neg()))
	tors := G1Torsion()
	for _, n := range []string{"T3", "T11", "T33", "cofactor"} {
		add("plus"+n, EncodeG1(s.Add(tors[n])))
	}
	add("plus+g1", EncodeG1(s.Add(G1Gen())))
	add("plus-g1", EncodeG1(s.Add(G1Gen().Neg())))
	add("plus+H", EncodeG1(s.Add(H)))
	add("plus-H", EncodeG1(s.Add(H.Neg())))
	add("double", EncodeG1(s.Add(s)))
	if !s.Inf {
		if xp := new(big.Int).Add(s.X, P); xp.BitLen() <= 381 {
			b := fp48(xp)
			b[0] |= enc[0] & 0xe0
			add("x+p", b)
		}
	}
	// non-reduced x just above p: p+k for the first few k that are x-coordinates of curve points
	// (k = 0 is the order-3 point (0, +-2)); independent of s. A decoder that skips or weakens the
	// x < p test near p accepts these as the point with x = k.
	for _, c := range smallAliases() {
		add(c.Name, c.Bytes)
	}
	for f := 0; f < 8; f++ {
		b := append([]byte{}, enc...)
		b[0] = b[0]&0x1f | byte(f)<<5
		add(fmt.Sprintf("flags/%03b", f), b)
	}
	if !s.Inf {
		add("uncompressed", append(fp48(s.X), fp48(s.Y)...))
	}
	for _, hdr := range []struct {
		n string
		h byte
	}{{"inf", 0xc0}, {"inf-sign", 0xe0}} {
		b := make([]byte, 48)
		b[0] = hdr.h
		add(hdr.n, b)
		for pos := 0; pos < 48; pos++ {
			for _, v := range []byte{0x01, 0x80} {
				if pos == 0 && v == 0x80 {
					continue // would only rewrite the header
				}
				c := append([]byte{}, b...)
				c[pos] |= v
				add(fmt.Sprintf("%s-nonzero/%d/%02x", hdr.n, pos, v), c)
			}
		}
	}
	for n := 0; n <= 200; n++ {
		switch {
		case n < 48:
			add(fmt.Sprintf("len/%d/trunc", n), append([]byte{}, enc[:n]...))
		case n > 48:
			z := make([]byte, n)
			copy(z, enc)
			add(fmt.Sprintf("len/%d/zeroext", n), z)
			g := make([]byte, n)
			copy(g, enc)
			for i := 48; i < n; i++ {
				g[i] = byte(0xa5 + 7*i)
			}
			add(fmt.Sprintf("len/%d/garbage", n), g)
		}
	}
	return out
}

// G1Verdict is the reference judgement of one candidate byte string.
type G1Verdict struct {
	Decodes bool // strict canonical decoding of a compressed E1 point succeeds
	InG1    bool // Decodes and the point is in the prime-order subgroup
	Point   G1
}

// JudgeG1 decodes b canonically and tests subgroup membership.
func JudgeG1(b []byte) G1Verdict {
	p, err := DecodeG1(b)
	if err != nil {
		return G1Verdict{}
	}
	return G1Verdict{Decodes: true, InG1: p.InSubgroup(), Point: p}
}


var (
	smallAliasCache []Candidate
	smallAliasOnce  sync.Once
)

// smallAliases: compressed strings whose x field is p+k (k small, (k,y) on E1), both sign bits.
func smallAliases() []Candidate {
	smallAliasOnce.Do(buildSmallAliases)
	return smallAliasCache
}

func buildSmallAliases() {
	var out []Candidate
	k := big.NewInt(0)
	for found := 0; found < 4; k = new(big.Int).Add(k, big1) {
		if _, ok := G1FromX(k, false); !ok {
			continue
		}
		found++
		xp := new(big.Int).Add(k, P)
		for _, sign := range []byte{0, FlagSign} {
			b := fp48(xp)
			b[0] |= FlagCompressed | sign
			out = append(out, Candidate{fmt.Sprintf("x+p-small/k=%s/sign=%d", k.String(), sign>>5), b})
		}
	}
	smallAliasCache = out
}
