package refbls_test

import (
	"bytes"
	"math/big"
	"testing"

	crypto "github.com/onflow/crypto"

	"verif/harness/ref/refbls"
)

// Cross-check of the reference against the library under test (calibration of the Flow
// byte order for G2 and of the G1 codec). The reference itself never imports the library.
func TestAgainstLibrary(t *testing.T) {
	rm1 := new(big.Int).Sub(refbls.R, big.NewInt(1))
	ks := []*big.Int{big.NewInt(1), big.NewInt(2), big.NewInt(3), rm1, new(big.Int).Rsh(refbls.R, 1)}
	h := crypto.NewExpandMsgXOFKMAC128("refbls-test")
	for _, k := range ks {
		sk, err := crypto.DecodePrivateKey(crypto.BLSBLS12381, refbls.ScalarBytes(k))
		if err != nil {
			t.Fatal(err)
		}
		want := refbls.EncodeG2Flow(refbls.G2Gen().Mul(k))
		if got := sk.PublicKey().Encode(); !bytes.Equal(got, want) {
			t.Fatalf("k=%v: library pk %x, reference (Flow order) %x", k, got, want)
		}
		if z := refbls.EncodeG2ZCash(refbls.G2Gen().Mul(k)); bytes.Equal(z, want) {
			t.Fatalf("ZCash and Flow encodings coincide for k=%v", k)
		} else if sw, ok := refbls.SwapG2Halves(z); !ok || !bytes.Equal(sw, want) {
			t.Fatalf("SwapG2Halves(ZCash) != Flow for k=%v", k)
		}
		pk, err := crypto.DecodePublicKey(crypto.BLSBLS12381, want)
		if err != nil || !pk.Equals(sk.PublicKey()) {
			t.Fatalf("library does not decode the Flow-order reference encoding: %v", err)
		}
	}
	// H(m) = signature under key 1; signature under sk = sk*H(m)
	one, _ := crypto.DecodePrivateKey(crypto.BLSBLS12381, refbls.ScalarBytes(big.NewInt(1)))
	for _, m := range [][]byte{nil, []byte("a"), bytes.Repeat([]byte{0x5a}, 1000)} {
		hs, err := one.Sign(m, h)
		if err != nil || len(hs) != 48 {
			t.Fatal(err, len(hs))
		}
		H, err := refbls.DecodeG1(hs)
		if err != nil || H.Inf || !H.InSubgroup() || !bytes.Equal(refbls.EncodeG1(H), hs) {
			t.Fatalf("H(m) does not decode canonically into G1: %v", err)
		}
		for _, k := range ks {
			sk, _ := crypto.DecodePrivateKey(crypto.BLSBLS12381, refbls.ScalarBytes(k))
			s, err := sk.Sign(m, h)
			if err != nil {
				t.Fatal(err)
			}
			pt, err := refbls.DecodeG1(s)
			if err != nil || !pt.InSubgroup() {
				t.Fatalf("library signature does not decode / not in G1: %v", err)
			}
			if want := refbls.EncodeG1(H.Mul(k)); !bytes.Equal(s, want) {
				t.Fatalf("k=%v: library signature %x, reference sk*H(m) %x", k, s, want)
			}
		}
	}
}
