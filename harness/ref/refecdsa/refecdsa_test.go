package refecdsa

import (
	"bytes"
	"math/big"
	"testing"

	crypto "github.com/onflow/crypto"

	"verif/harness/ref/refsha2"
)

func TestSelf(t *testing.T) {
	if err := SelfTest(); err != nil {
		t.Fatal(err)
	}
}

// 20 deterministic scalars per curve (fixed small/extreme ones plus SHA-256 chained ones)
// against the public keys the library computes for them.
func TestCrossLibraryPublicKeys(t *testing.T) {
	for _, tc := range []struct {
		c    *Curve
		algo crypto.SigningAlgorithm
	}{{P256(), crypto.ECDSAP256}, {Secp256k1(), crypto.ECDSASecp256k1}} {
		c := tc.c
		ks := []*big.Int{big.NewInt(1), big.NewInt(2), big.NewInt(3), big.NewInt(255), big.NewInt(256),
			new(big.Int).Lsh(big.NewInt(1), 128), new(big.Int).Sub(c.N, big.NewInt(1)), new(big.Int).Sub(c.N, big.NewInt(2)),
			new(big.Int).Add(new(big.Int).Lsh(big.NewInt(1), 232), big.NewInt(5)),
			new(big.Int).Add(new(big.Int).Lsh(big.NewInt(1), 240), big.NewInt(7))}
		seed := []byte("refecdsa cross-check " + c.Name)
		for len(ks) < 20 {
			seed = refsha2.Sum256(seed)
			k := new(big.Int).SetBytes(seed)
			k.Mod(k, new(big.Int).Sub(c.N, big.NewInt(1)))
			k.Add(k, big.NewInt(1))
			ks = append(ks, k)
		}
		for _, k := range ks {
			sk, err := crypto.DecodePrivateKey(tc.algo, k.FillBytes(make([]byte, 32)))
			if err != nil {
				t.Fatalf("%s k=%x: %v", c.Name, k, err)
			}
			x, y := c.ScalarBaseMult(k)
			want := sk.PublicKey().Encode()
			if !bytes.Equal(c.EncodeRaw(x, y), want) {
				t.Fatalf("%s k=%x: reference %x library %x", c.Name, k, c.EncodeRaw(x, y), want)
			}
			if !bytes.Equal(c.EncodeCompressed(x, y), sk.PublicKey().EncodeCompressed()) {
				t.Fatalf("%s k=%x: compressed encodings differ", c.Name, k)
			}
			px, py, ok := c.ParseRaw(want)
			if !ok || px.Cmp(x) != 0 || py.Cmp(y) != 0 {
				t.Fatalf("%s k=%x: ParseRaw of library key failed", c.Name, k)
			}
		}
	}
}

func BenchmarkVerify(b *testing.B) {
	c := Secp256k1()
	d := big.NewInt(123456789)
	x, y := c.ScalarBaseMult(d)
	dig := refsha2.Sum256([]byte("abc"))
	r, s, _ := c.Sign(d, dig, big.NewInt(987654321))
	for i := 0; i < b.N; i++ {
		if !c.Verify(x, y, dig, r, s) {
			b.Fatal("reject")
		}
	}
}
