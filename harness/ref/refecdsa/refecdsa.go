// Package refecdsa is a deliberately naive reference model of short-Weierstrass curve
// arithmetic and ECDSA over NIST P-256 and SECG secp256k1, written with math/big only.
//
// It is independent of crypto/ecdsa, crypto/elliptic, crypto/ecdh, btcec and of the library
// under test (none of them is imported). Everything is affine; every addition costs one
// modular inversion. No attempt at constant time or speed.
//
// Representation of the point at infinity: all point-returning primitives that can produce
// it (Add, Double, ScalarMult) return an explicit `inf bool`; when inf is true the returned
// coordinates are nil,nil. Inputs at infinity are passed as nil,nil as well. ScalarBaseMult
// returns nil,nil for k = 0 mod N (no bool, for brevity).
//
// Sources of the constants: FIPS 186-4 D.1.2.3 (P-256), SEC 2 v2 2.4.1 (secp256k1).
// Self-test vectors: 2G of both curves (published point-multiplication vectors),
// RFC 6979 A.2.5 (P-256, SHA-256, messages "sample" and "test").
package refecdsa

import (
	"bytes"
	"fmt"
	"math/big"

	"verif/harness/ref/refsha2"
)

// Curve is y^2 = x^3 + A x + B over F_P with base point (Gx,Gy) of prime order N (cofactor 1).
type Curve struct {
	Name       string
	P, N, A, B *big.Int
	Gx, Gy     *big.Int
}

func h(s string) *big.Int {
	v, ok := new(big.Int).SetString(s, 16)
	if !ok {
		panic("refecdsa: bad constant " + s)
	}
	return v
}

// P256 returns NIST P-256 (secp256r1).
func P256() *Curve {
	p := h("FFFFFFFF00000001000000000000000000000000FFFFFFFFFFFFFFFFFFFFFFFF")
	return &Curve{
		Name: "P-256",
		P:    p,
		N:    h("FFFFFFFF00000000FFFFFFFFFFFFFFFFBCE6FAADA7179E84F3B9CAC2FC632551"),
		A:    new(big.Int).Sub(p, big.NewInt(3)),
		B:    h("5AC635D8AA3A93E7B3EBBD55769886BC651D06B0CC53B0F63BCE3C3E27D2604B"),
		Gx:   h("6B17D1F2E12C4247F8BCE6E563A440F277037D812DEB33A0F4A13945D898C296"),
		Gy:   h("4FE342E2FE1A7F9B8EE7EB4A7C0F9E162BCE33576B315ECECBB6406837BF51F5"),
	}
}

// Secp256k1 returns SECG secp256k1.
func Secp256k1() *Curve {
	return &Curve{
		Name: "secp256k1",
		P:    h("FFFFFFFFFFFFFFFFFFFFFFFFFFFFFFFFFFFFFFFFFFFFFFFFFFFFFFFEFFFFFC2F"),
		N:    h("FFFFFFFFFFFFFFFFFFFFFFFFFFFFFFFEBAAEDCE6AF48A03BBFD25E8CD0364141"),
		A:    big.NewInt(0),
		B:    big.NewInt(7),
		Gx:   h("79BE667EF9DCBBAC55A06295CE870B07029BFCDB2DCE28D959F2815B16F81798"),
		Gy:   h("483ADA7726A3C4655DA4FBFC0E1108A8FD17B448A68554199C47D08FFB10D4B8"),
	}
}

func (c *Curve) mod(v *big.Int) *big.Int { return v.Mod(v, c.P) }

// rhs returns x^3 + A x + B mod P.
func (c *Curve) rhs(x *big.Int) *big.Int {
	r := new(big.Int).Mul(x, x)
	r.Mul(r, x)
	r.Add(r, new(big.Int).Mul(c.A, x))
	r.Add(r, c.B)
	return c.mod(r)
}

// IsOnCurve reports whether (x,y) is an affine point of the curve with reduced
// coordinates: 0 <= x,y < P and y^2 = x^3 + A x + B (mod P). nil coordinates (infinity) are
// not "on the curve" for this predicate.
func (c *Curve) IsOnCurve(x, y *big.Int) bool {
	if x == nil || y == nil {
		return false
	}
	if x.Sign() < 0 || y.Sign() < 0 || x.Cmp(c.P) >= 0 || y.Cmp(c.P) >= 0 {
		return false
	}
	l := new(big.Int).Mul(y, y)
	c.mod(l)
	return l.Cmp(c.rhs(x)) == 0
}

// Double returns 2·(x1,y1). Infinity in (nil,nil) gives infinity out; a point with y = 0
// doubles to infinity.
func (c *Curve) Double(x1, y1 *big.Int) (x, y *big.Int, inf bool) {
	if x1 == nil || y1 == nil {
		return nil, nil, true
	}
	if y1.Sign() == 0 {
		return nil, nil, true
	}
	// lambda = (3 x1^2 + A) / (2 y1)
	num := new(big.Int).Mul(x1, x1)
	num.Mul(num, big.NewInt(3))
	num.Add(num, c.A)
	c.mod(num)
	den := new(big.Int).Lsh(y1, 1)
	c.mod(den)
	den.ModInverse(den, c.P)
	lam := c.mod(num.Mul(num, den))
	return c.chord(lam, x1, y1, x1)
}

// chord finishes an addition with slope lam through (x1,y1) and a point with abscissa x2.
func (c *Curve) chord(lam, x1, y1, x2 *big.Int) (x, y *big.Int, inf bool) {
	x = new(big.Int).Mul(lam, lam)
	x.Sub(x, x1)
	x.Sub(x, x2)
	c.mod(x)
	y = new(big.Int).Sub(x1, x)
	y.Mul(y, lam)
	y.Sub(y, y1)
	c.mod(y)
	return x, y, false
}

// Add returns (x1,y1) + (x2,y2) with complete case analysis: either input may be infinity
// (nil,nil); P + (-P) = infinity; P + P = Double(P).
func (c *Curve) Add(x1, y1, x2, y2 *big.Int) (x, y *big.Int, inf bool) {
	if x1 == nil || y1 == nil {
		if x2 == nil || y2 == nil {
			return nil, nil, true
		}
		return new(big.Int).Set(x2), new(big.Int).Set(y2), false
	}
	if x2 == nil || y2 == nil {
		return new(big.Int).Set(x1), new(big.Int).Set(y1), false
	}
	if x1.Cmp(x2) == 0 {
		if y1.Cmp(y2) == 0 {
			return c.Double(x1, y1)
		}
		// same abscissa, different ordinate: y2 = -y1
		return nil, nil, true
	}
	num := new(big.Int).Sub(y2, y1)
	c.mod(num)
	den := new(big.Int).Sub(x2, x1)
	c.mod(den)
	den.ModInverse(den, c.P)
	lam := c.mod(num.Mul(num, den))
	return c.chord(lam, x1, y1, x2)
}

// ScalarMult returns k·(x,y) by left-to-right double-and-add. k is first reduced mod N
// (valid because every point of these cofactor-1 curves has order N or is infinity; negative
// k therefore also works). Infinity in gives infinity out.
func (c *Curve) ScalarMult(x, y, k *big.Int) (rx, ry *big.Int, inf bool) {
	if x == nil || y == nil {
		return nil, nil, true
	}
	kk := new(big.Int).Mod(k, c.N)
	inf = true
	for i := kk.BitLen() - 1; i >= 0; i-- {
		if !inf {
			rx, ry, inf = c.Double(rx, ry)
		}
		if kk.Bit(i) == 1 {
			if inf {
				rx, ry, inf = new(big.Int).Set(x), new(big.Int).Set(y), false
			} else {
				rx, ry, inf = c.Add(rx, ry, x, y)
			}
		}
	}
	if inf {
		return nil, nil, true
	}
	return rx, ry, false
}

// ScalarBaseMult returns k·G, or nil,nil when k = 0 mod N.
func (c *Curve) ScalarBaseMult(k *big.Int) (x, y *big.Int) {
	x, y, inf := c.ScalarMult(c.Gx, c.Gy, k)
	if inf {
		return nil, nil
	}
	return x, y
}

// DecompressY returns the square root y of x^3 + A x + B with the requested parity, or
// false when the right-hand side is not a square (or x is not in [0,P)). Both primes are
// 3 mod 4, so a root is rhs^((P+1)/4).
func (c *Curve) DecompressY(x *big.Int, odd bool) (*big.Int, bool) {
	if x == nil || x.Sign() < 0 || x.Cmp(c.P) >= 0 {
		return nil, false
	}
	r := c.rhs(x)
	e := new(big.Int).Add(c.P, big.NewInt(1))
	e.Rsh(e, 2)
	y := new(big.Int).Exp(r, e, c.P)
	chk := new(big.Int).Mul(y, y)
	c.mod(chk)
	if chk.Cmp(r) != 0 {
		return nil, false
	}
	if (y.Bit(0) == 1) != odd {
		if y.Sign() == 0 {
			// y = 0 has no odd twin (cannot happen on these curves: no point of order 2)
			return nil, false
		}
		y.Sub(c.P, y)
	}
	return y, true
}

// ParseRaw decodes the 64-byte big-endian X||Y form: both coordinates < P, the point on
// the curve. Infinity has no such encoding, so ok implies a finite point.
func (c *Curve) ParseRaw(b []byte) (x, y *big.Int, ok bool) {
	if len(b) != 64 {
		return nil, nil, false
	}
	x = new(big.Int).SetBytes(b[:32])
	y = new(big.Int).SetBytes(b[32:])
	if !c.IsOnCurve(x, y) {
		return nil, nil, false
	}
	return x, y, true
}

// ParseCompressed decodes the 33-byte SEC1 / X9.62 compressed form: prefix 0x02 (even y)
// or 0x03 (odd y) only, x < P, x^3 + A x + B a square.
func (c *Curve) ParseCompressed(b []byte) (x, y *big.Int, ok bool) {
	if len(b) != 33 || (b[0] != 2 && b[0] != 3) {
		return nil, nil, false
	}
	x = new(big.Int).SetBytes(b[1:])
	if x.Cmp(c.P) >= 0 {
		return nil, nil, false
	}
	y, ok = c.DecompressY(x, b[0] == 3)
	if !ok {
		return nil, nil, false
	}
	return x, y, true
}

// EncodeRaw returns X||Y, each padded to 32 bytes.
func (c *Curve) EncodeRaw(x, y *big.Int) []byte {
	out := make([]byte, 64)
	x.FillBytes(out[:32])
	y.FillBytes(out[32:])
	return out
}

// EncodeCompressed returns (0x02|parity(y)) || X.
func (c *Curve) EncodeCompressed(x, y *big.Int) []byte {
	out := make([]byte, 33)
	out[0] = 2 + byte(y.Bit(0))
	x.FillBytes(out[1:])
	return out
}

// DigestInt converts a digest to the integer e of ECDSA (FIPS 186-4 6.4 / SEC1 4.1.3 step 5):
// the leftmost min(N.BitLen(), 8·len) bits of the digest as a big-endian integer. N has
// 256 bits on both curves, so this is the first 32 bytes when the digest is longer and the
// whole digest otherwise. e is NOT reduced mod N here.
func (c *Curve) DigestInt(digest []byte) *big.Int {
	nb := c.N.BitLen()
	d := digest
	if len(d)*8 > nb {
		d = d[:(nb+7)/8]
	}
	e := new(big.Int).SetBytes(d)
	if ex := len(d)*8 - nb; ex > 0 {
		e.Rsh(e, uint(ex))
	}
	return e
}

// Sign computes the ECDSA signature of digest under private scalar d with the chosen nonce
// k (both are used mod N; they must be non-zero mod N or ok is false):
// r = (k·G).x mod N, s = k^-1 (e + r d) mod N. ok is false when r or s is 0.
func (c *Curve) Sign(d *big.Int, digest []byte, k *big.Int) (r, s *big.Int, ok bool) {
	kk := new(big.Int).Mod(k, c.N)
	dd := new(big.Int).Mod(d, c.N)
	if kk.Sign() == 0 || dd.Sign() == 0 {
		return nil, nil, false
	}
	x, _ := c.ScalarBaseMult(kk)
	if x == nil {
		return nil, nil, false
	}
	r = new(big.Int).Mod(x, c.N)
	if r.Sign() == 0 {
		return nil, nil, false
	}
	e := c.DigestInt(digest)
	s = new(big.Int).Mul(r, dd)
	s.Add(s, e)
	s.Mod(s, c.N)
	s.Mul(s, new(big.Int).ModInverse(kk, c.N))
	s.Mod(s, c.N)
	if s.Sign() == 0 {
		return nil, nil, false
	}
	return r, s, true
}

// Verify is the textbook ECDSA verification: 1 <= r,s < N; e = leftmost 256 bits of digest;
// w = s^-1 mod N; R = (e w)·G + (r w)·Q; accept iff R is finite and R.x mod N = r.
// (qx,qy) must be a finite point on the curve, otherwise false.
func (c *Curve) Verify(qx, qy *big.Int, digest []byte, r, s *big.Int) bool {
	if r == nil || s == nil || !c.IsOnCurve(qx, qy) {
		return false
	}
	if r.Sign() <= 0 || s.Sign() <= 0 || r.Cmp(c.N) >= 0 || s.Cmp(c.N) >= 0 {
		return false
	}
	e := c.DigestInt(digest)
	w := new(big.Int).ModInverse(s, c.N)
	u1 := new(big.Int).Mul(e, w)
	u1.Mod(u1, c.N)
	u2 := new(big.Int).Mul(r, w)
	u2.Mod(u2, c.N)
	x1, y1, _ := c.ScalarMult(c.Gx, c.Gy, u1) // nil,nil when u1 = 0
	x2, y2, _ := c.ScalarMult(qx, qy, u2)
	x, _, inf := c.Add(x1, y1, x2, y2)
	if inf {
		return false
	}
	v := new(big.Int).Mod(x, c.N)
	return v.Cmp(r) == 0
}

// SelfTest checks the model against published vectors.
func SelfTest() error {
	if err := refsha2.SelfTest(); err != nil {
		return err
	}
	type pt struct{ k, x, y string }
	vec := map[string][]pt{
		"P-256": {
			{"1", "6B17D1F2E12C4247F8BCE6E563A440F277037D812DEB33A0F4A13945D898C296", "4FE342E2FE1A7F9B8EE7EB4A7C0F9E162BCE33576B315ECECBB6406837BF51F5"},
			{"2", "7CF27B188D034F7E8A52380304B51AC3C08969E277F21B35A60B48FC47669978", "07775510DB8ED040293D9AC69F7430DBBA7DADE63CE982299E04B79D227873D1"},
			{"3", "5ECBE4D1A6330A44C8F7EF951D4BF165E6C6B721EFADA985FB41661BC6E7FD6C", "8734640C4998FF7E374B06CE1A64A2ECD82AB036384FB83D9A79B127A27D5032"},
			// RFC 6979 A.2.5: public key of x = C9AFA9D8...
			{"C9AFA9D845BA75166B5C215767B1D6934E50C3DB36E89B127B8A622B120F6721", "60FED4BA255A9D31C961EB74C6356D68C049B8923B61FA6CE669622E60F29FB6", "7903FE1008B8BC99A41AE9E95628BC64F2F1B20C2D7E9F5177A3C294D4462299"},
		},
		"secp256k1": {
			{"1", "79BE667EF9DCBBAC55A06295CE870B07029BFCDB2DCE28D959F2815B16F81798", "483ADA7726A3C4655DA4FBFC0E1108A8FD17B448A68554199C47D08FFB10D4B8"},
			{"2", "C6047F9441ED7D6D3045406E95C07CD85C778E4B8CEF3CA7ABAC09B95C709EE5", "1AE168FEA63DC339A3C58419466CEAEEF7F632653266D0E1236431A950CFE52A"},
			{"3", "F9308A019258C31049344F85F89D5229B531C845836F99B08601F113BCE036F9", "388F7B0F632DE8140FE337E62A37F3566500A99934C2231B6CB9FD7584B8E672"},
		},
	}
	for _, c := range []*Curve{P256(), Secp256k1()} {
		if !c.IsOnCurve(c.Gx, c.Gy) {
			return fmt.Errorf("refecdsa self-test: %s generator not on curve", c.Name)
		}
		if !c.P.ProbablyPrime(32) || !c.N.ProbablyPrime(32) {
			return fmt.Errorf("refecdsa self-test: %s P or N not prime", c.Name)
		}
		if new(big.Int).Mod(c.P, big.NewInt(4)).Int64() != 3 {
			return fmt.Errorf("refecdsa self-test: %s P != 3 mod 4", c.Name)
		}
		if _, _, inf := c.ScalarMult(c.Gx, c.Gy, c.N); !inf {
			return fmt.Errorf("refecdsa self-test: %s N·G is not infinity", c.Name)
		}
		for _, v := range vec[c.Name] {
			x, y := c.ScalarBaseMult(h(v.k))
			if x == nil || x.Cmp(h(v.x)) != 0 || y.Cmp(h(v.y)) != 0 {
				return fmt.Errorf("refecdsa self-test: %s %s·G wrong", c.Name, v.k)
			}
			if !c.IsOnCurve(x, y) {
				return fmt.Errorf("refecdsa self-test: %s %s·G not on curve", c.Name, v.k)
			}
			// (N-k)·G = -(k·G)
			nx, ny := c.ScalarBaseMult(new(big.Int).Sub(c.N, h(v.k)))
			if nx.Cmp(x) != 0 || new(big.Int).Add(ny, y).Cmp(c.P) != 0 {
				return fmt.Errorf("refecdsa self-test: %s (N-%s)·G is not the negation", c.Name, v.k)
			}
			if _, _, inf := c.Add(x, y, nx, ny); !inf {
				return fmt.Errorf("refecdsa self-test: %s P + (-P) is not infinity", c.Name)
			}
			// encodings round-trip
			px, py, ok := c.ParseCompressed(c.EncodeCompressed(x, y))
			if !ok || px.Cmp(x) != 0 || py.Cmp(y) != 0 {
				return fmt.Errorf("refecdsa self-test: %s compressed round trip of %s·G", c.Name, v.k)
			}
			px, py, ok = c.ParseRaw(c.EncodeRaw(x, y))
			if !ok || px.Cmp(x) != 0 || py.Cmp(y) != 0 {
				return fmt.Errorf("refecdsa self-test: %s raw round trip of %s·G", c.Name, v.k)
			}
		}
		// 2G + G = 3G through Add, G + G through Add = Double
		v := vec[c.Name]
		x3, y3, _ := c.Add(h(v[1].x), h(v[1].y), c.Gx, c.Gy)
		if x3.Cmp(h(v[2].x)) != 0 || y3.Cmp(h(v[2].y)) != 0 {
			return fmt.Errorf("refecdsa self-test: %s 2G+G != 3G", c.Name)
		}
		x2, y2, _ := c.Add(c.Gx, c.Gy, c.Gx, c.Gy)
		if x2.Cmp(h(v[1].x)) != 0 || y2.Cmp(h(v[1].y)) != 0 {
			return fmt.Errorf("refecdsa self-test: %s G+G != 2G", c.Name)
		}
		// rejects
		bad := c.EncodeRaw(c.Gx, new(big.Int).Add(c.Gy, big.NewInt(1)))
		if _, _, ok := c.ParseRaw(bad); ok {
			return fmt.Errorf("refecdsa self-test: %s off-curve point accepted", c.Name)
		}
		cb := c.EncodeCompressed(c.Gx, c.Gy)
		cb[0] = 4
		if _, _, ok := c.ParseCompressed(cb); ok {
			return fmt.Errorf("refecdsa self-test: %s compressed prefix 4 accepted", c.Name)
		}
	}

	// RFC 6979 A.2.5, P-256 with SHA-256
	p := P256()
	d := h("C9AFA9D845BA75166B5C215767B1D6934E50C3DB36E89B127B8A622B120F6721")
	qx, qy := p.ScalarBaseMult(d)
	for _, t := range []struct{ msg, k, r, s string }{
		{"sample", "A6E3C57DD01ABE90086538398355DD4C3B17AA873382B0F24D6129493D8AAD60",
			"EFD48B2AACB6A8FD1140DD9CD45E81D69D2C877B56AAF991C34D0EA84EAF3716",
			"F7CB1C942D657C41D436C7A1B6E29F65F3E900DBB9AFF4064DC4AB2F843ACDA8"},
		{"test", "D16B6AE827F17175E040871A1C7EC3500192C4C92677336EC2537ACAEE0008E0",
			"F1ABB023518351CD71D881567B1EA663ED3EFCF6C5132B354F28D3B0B7D38367",
			"019F4113742A2B14BD25926B49C649155F267E60D3814B4C0CC84250E46F0083"},
	} {
		dig := refsha2.Sum256([]byte(t.msg))
		r, s := h(t.r), h(t.s)
		if !p.Verify(qx, qy, dig, r, s) {
			return fmt.Errorf("refecdsa self-test: RFC 6979 A.2.5 %q signature rejected", t.msg)
		}
		gr, gs, ok := p.Sign(d, dig, h(t.k))
		if !ok || gr.Cmp(r) != 0 || gs.Cmp(s) != 0 {
			return fmt.Errorf("refecdsa self-test: RFC 6979 A.2.5 %q Sign(k) mismatch", t.msg)
		}
		// twin accepted, perturbations rejected
		if !p.Verify(qx, qy, dig, r, new(big.Int).Sub(p.N, s)) {
			return fmt.Errorf("refecdsa self-test: twin (r, n-s) rejected")
		}
		if p.Verify(qx, qy, dig, r, new(big.Int).Add(s, big.NewInt(1))) ||
			p.Verify(qx, qy, dig, new(big.Int).Add(r, big.NewInt(1)), s) ||
			p.Verify(qx, qy, refsha2.Sum256([]byte(t.msg+"x")), r, s) ||
			p.Verify(qx, qy, dig, big.NewInt(0), s) || p.Verify(qx, qy, dig, r, p.N) {
			return fmt.Errorf("refecdsa self-test: perturbed RFC 6979 signature accepted")
		}
	}
	// digest handling: a 48-byte digest uses its first 32 bytes; a short one is used whole
	long := append(append([]byte{}, refsha2.Sum256([]byte("sample"))...), bytes.Repeat([]byte{0xAB}, 16)...)
	if p.DigestInt(long).Cmp(new(big.Int).SetBytes(long[:32])) != 0 || p.DigestInt([]byte{1, 2}).Int64() != 0x0102 {
		return fmt.Errorf("refecdsa self-test: digest truncation")
	}
	// sign/verify round trip on secp256k1 with extreme nonces and keys
	k1 := Secp256k1()
	for _, dd := range []*big.Int{big.NewInt(1), big.NewInt(2), new(big.Int).Sub(k1.N, big.NewInt(1))} {
		x, y := k1.ScalarBaseMult(dd)
		for _, kk := range []*big.Int{big.NewInt(1), big.NewInt(3), new(big.Int).Sub(k1.N, big.NewInt(1))} {
			dig := refsha2.Sum256([]byte("abc"))
			r, s, ok := k1.Sign(dd, dig, kk)
			if !ok || !k1.Verify(x, y, dig, r, s) || k1.Verify(x, y, refsha2.Sum256([]byte("abd")), r, s) {
				return fmt.Errorf("refecdsa self-test: secp256k1 round trip d=%v k=%v", dd, kk)
			}
		}
	}
	return nil
}
