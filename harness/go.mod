module verif/harness

go 1.26.0

require (
	github.com/onflow/crypto v0.0.0
	golang.org/x/crypto v0.36.0
)

require (
	github.com/anishathalye/porcupine v1.3.0
	github.com/btcsuite/btcd/btcec/v2 v2.3.4 // indirect
	github.com/davecgh/go-spew v1.1.1 // indirect
	github.com/decred/dcrd/dcrec/secp256k1/v4 v4.0.1 // indirect
	github.com/pmezard/go-difflib v1.0.0 // indirect
	github.com/stretchr/testify v1.10.0 // indirect
	golang.org/x/sys v0.31.0 // indirect
	gonum.org/v1/gonum v0.16.0 // indirect
	gopkg.in/yaml.v3 v3.0.1 // indirect
)

replace github.com/onflow/crypto => /repo
